"""C14 - spectra survive file and pickle round trips with data, mask, folding and labels.

Text I/O: the symbolic data are *strings, flags and mask bits*, not reals.  Two complementary parts:

(S) symbolic part ("sym-*" units): CrossHair (symbolic execution of the unmodified Python code of
    Spectrum.to_file / Spectrum.from_file on z3 string/bool terms) run in a subprocess on the harness functions
    `ch_*` below, with `Spectrum_mod.open` / `Spectrum_mod.gzip` replaced by pure-Python in-memory files so that no
    C boundary realises the symbolic strings.  Outcomes: counterexample -> validated on REAL files with the real
    code (and replayed by the harness the same way); "Confirmed over all paths" -> obligation discharged;
    "Not confirmed"/time-out -> STRETCH-INCONCLUSIVE (never success).
(E) enumerated part ("enum-*" units, labelled as *concrete enumeration*): small spectra of 1-5 dimensions
    (incl. singleton axes), every mask pattern (small sizes) or a structured family, folded or not, adversarial
    ASCII labels, 0-5 comments, precision 16/17(/18/25), plain and gzip, written and read on real temp files; the
    written file is additionally parsed by an independent reader of the documented format and an independently
    written file is read by from_file; pre-1.3 format; Numerics.array_to_file/array_from_file; pickle.
"""
import ast
import gzip as _real_gzip
import inspect
import io
import itertools
import json
import logging
import math
import os
import pickle
import re
import shutil
import subprocess
import sys
import tempfile

import numpy

from engine import harness as H
from engine import symreal as S

META = dict(
    explanation=(
        'Two parts.  (S) SYMBOLIC (units sym-*): CrossHair executes the unmodified Spectrum.to_file/from_file '
        'symbolically (z3 strings/bools) on harness functions that round-trip a spectrum through a pure-Python '
        'in-memory text file (Spectrum_mod.open and Spectrum_mod.gzip replaced by module attributes; the fake gzip '
        'keeps gzip semantics: binary mode rejects str, text mode accepts it) with symbolic population labels '
        '(no quote/newline), folded flag, comment line(s), mask bits and mask_corners flag and a small concrete '
        'numeric payload; post-condition: labels, folded, stripped comments, mask (with corners re-masked iff '
        'mask_corners) and shape identical; plain and ".gz" names.  "Confirmed over all paths" discharges the unit, a '
        'counterexample is first re-run on real files with the real code and only then reported (the harness replays '
        'it the same way), "Not confirmed" is STRETCH-INCONCLUSIVE.  (E) CONCRETE ENUMERATION (units enum-*; these '
        'are concrete runs, not solver proofs, and complement the symbolic part): spectra of 1-5 dimensions incl. '
        'singleton axes x every mask pattern (small sizes; structured family above) x folded flag x mask_corners x '
        'adversarial ASCII labels x 0-5 comments x precision 16/17 x plain/gzip on real temp files, with values that '
        'are decimals of <= 15 significant digits (so equality is exact), plus extreme (1e-300..1e300, subnormal, max), '
        'non-finite and generic doubles (exact at precision >= 17, 6e-16 relative at 16); the written file is parsed '
        'by an independent reader of the documented format (C order, 1 = masked) and an independently written file '
        'is read back; pre-1.3 format both ways; Numerics.array_to_file/array_from_file (file names and open '
        'files, masked input -> nan) and cross-reading with Spectrum.from_file; pickle protocols 0-5 and '
        'copy.deepcopy (data bitwise, mask exact, folded, labels, extrap_x).'),
    functions=['dadi.Spectrum_mod.Spectrum.to_file', 'dadi.Spectrum_mod.Spectrum.from_file',
               'dadi.Spectrum_mod.Spectrum_pickler', 'dadi.Spectrum_mod.Spectrum_unpickler',
               'dadi.Numerics.array_to_file', 'dadi.Numerics.array_from_file'],
    files=['dadi/Spectrum_mod.py', 'dadi/Numerics.py'],
    bounds=dict(
        quick='SYMBOLIC (CrossHair, 120 CPU-s per harness, 30 s per path): two labels |l|<=1 each on a 2x2 spectrum (folded '
              'fixed False); one label |l|<=2 + folded flag (3 entries); one comment |c|<=3 + folded flag; 4 mask bits + '
              'folded + mask_corners (64 combinations); combined harness of DESIGN.md (2 labels<=1, comment<=2, 4 mask '
              'bits, folded) as stretch; each for plain and .gz names; labels without double quote/LF/CR, comments '
              'without LF/CR, otherwise arbitrary unicode.  ENUMERATION (concrete): 17 shapes of 1-5 dims (sizes '
              '1..8), all 2^n masks for n<=6 else 10-18 structured masks, x folded x mask_corners x precision 16/17; 13 '
              'labels, 0-5 comments from 9 strings, values units: precisions 16,17,18,25; pickle protocols 0-5 + deepcopy',
        thorough='SYMBOLIC (700 CPU-s per harness, 70 s per path): two labels |l|<=2, one label |l|<=3 + folded, comment '
                 '|c|<=4, two comments |c|<=3 each, combined harness with labels<=2/comment<=3 (stretch).  ENUMERATION: 27 '
                 'shapes (sizes up to 32), all 2^n masks for n<=9, full 13^d label product for 1-2 dims'),
    outside=['labels or comments containing a double quote, newline or carriage return; non-ASCII text (depends on '
             'the locale encoding of open())', 'precision < 16', 'float formatting/parsing itself (printf %.{p}g / '
             'strtod are exercised concretely, not modelled)', 'pickle and array_to/from_file are enumerated only '
             '(C code: copyreg/pickle, ndarray.tofile/fromfile)', '0-dimensional spectra',
             'array_to_file on gzip names (not offered by that function)'],
    stubs=['Spectrum_mod.open -> in-memory text file (write/readline/close); Spectrum_mod.gzip -> object with '
           'open(name, mode): binary in-memory file that raises TypeError on str (as gzip.GzipFile does) unless "t" in '
           'mode (symbolic part only; the enumerated part and every replay use real files and the real gzip)',
           'CrossHair str.__mod__ patch: "%s" % <symbolic str> is modelled as concatenation instead of being '
           'realised (plugin generated by the check); numpy.savetxt/fromstring see only concrete numeric text'],
    assumptions=['CrossHair 0.0.110 models str.split/strip/find/startswith/slicing faithfully; one modelling defect '
                 'was found and avoided: == between two *symbolic* strings after slicing a concatenation is '
                 'unreliable, so the harness compares code points; every CrossHair counterexample is re-validated on '
                 'real files', 'enumerated units are concrete runs (exhaustive only over the listed finite sets)',
                 'text is ASCII'],
)

logging.getLogger('Spectrum_mod').setLevel(logging.ERROR)
logging.getLogger('Numerics').setLevel(logging.ERROR)

VERIF = os.path.dirname(os.path.dirname(os.path.abspath(__file__)))
MAXL = int(os.environ.get('C14_MAXL', '2'))      # bound on symbolic label length (read by the contracts)
MAXC = int(os.environ.get('C14_MAXC', '3'))      # bound on symbolic comment length
FOLDSYM = os.environ.get('C14_FOLDSYM', '1') == '1'   # label harnesses: folded flag symbolic (else fixed False)


# =====================================================================================================
# in-memory files (symbolic part only)
# =====================================================================================================
class MemText:
    """Pure-Python in-memory text file.  Written chunks are kept separate, so concrete chunks (the numeric
    lines written by numpy.savetxt) stay concrete and only the header/comment lines are symbolic.
    readline() splits on '\\n' only (as a text file opened with default newline handling does for '\\n')."""

    def __init__(self, store, name, mode):
        self.store, self.name, self.mode = store, name, mode
        if 'w' in mode:
            store[name] = []
        elif name not in store:
            raise FileNotFoundError(name)
        self.ci = 0
        self.off = 0

    def write(self, s):
        if not isinstance(s, str):
            raise TypeError('write() argument must be str, not %s' % type(s).__name__)
        self.store[self.name].append(s)
        return len(s)

    def readline(self):
        chunks = self.store[self.name]
        out = None
        while self.ci < len(chunks):
            c = chunks[self.ci]
            k = c.find('\n', self.off)
            if k < 0:
                piece = c[self.off:] if self.off else c
                self.ci += 1
                self.off = 0
                out = piece if out is None else out + piece
            else:
                piece = c[self.off:k + 1]
                self.off = k + 1
                if self.off >= len(c):
                    self.ci += 1
                    self.off = 0
                out = piece if out is None else out + piece
                break
        return '' if out is None else out

    def read(self):
        r = ''
        while True:
            ln = self.readline()
            if not ln:
                return r
            r = r + ln

    def flush(self):
        pass

    def close(self):
        pass

    def __enter__(self):
        return self

    def __exit__(self, *a):
        return False


class MemBin(io.BufferedIOBase):
    """In-memory *binary* file with the semantics of gzip.GzipFile that matter here: write() rejects str
    with TypeError, readline() returns bytes.  Subclass of BufferedIOBase so io.TextIOWrapper can wrap it."""

    def __init__(self, store, name, mode):
        io.BufferedIOBase.__init__(self)
        self.store, self.name, self.mode = store, name, mode
        if 'w' in mode:
            store[name] = []
        elif name not in store:
            raise FileNotFoundError(name)
        self._buf = None
        self._pos = 0

    def readable(self):
        return 'r' in self.mode

    def writable(self):
        return 'w' in self.mode

    def seekable(self):
        return False

    def write(self, b):
        if isinstance(b, str):
            raise TypeError("a bytes-like object is required, not 'str'")
        b = bytes(b)
        self.store[self.name].append(b)
        return len(b)

    def _all(self):
        if self._buf is None:
            self._buf = b''.join(c if isinstance(c, bytes) else c.encode('ascii') for c in self.store[self.name])
        return self._buf

    def read(self, n=-1):
        buf = self._all()
        if n is None or n < 0:
            n = len(buf) - self._pos
        r = buf[self._pos:self._pos + n]
        self._pos += len(r)
        return r

    def read1(self, n=-1):
        return self.read(n)

    def readinto(self, b):
        r = self.read(len(b))
        b[:len(r)] = r
        return len(r)

    def readline(self, size=-1):
        buf = self._all()
        k = buf.find(b'\n', self._pos)
        end = len(buf) if k < 0 else k + 1
        r = buf[self._pos:end]
        self._pos = end
        return r

    def flush(self):
        pass

    def close(self):
        pass


class FakeGzip:
    """Stands in for the `gzip` module inside Spectrum_mod (symbolic part only)."""

    def __init__(self, store):
        self.store = store

    def open(self, name, mode='rb', *a, **k):
        if 't' in mode:
            return MemText(self.store, name, mode)
        return MemBin(self.store, name, mode)

    def GzipFile(self, name, mode='rb', *a, **k):
        return MemBin(self.store, name, mode)


_STORE = {}


def _install_memfiles():
    from dadi import Spectrum_mod
    _STORE.clear()
    Spectrum_mod.open = lambda name, mode='r', *a, **k: (MemBin if 'b' in mode else MemText)(_STORE, name, mode)
    Spectrum_mod.gzip = FakeGzip(_STORE)


def _uninstall_memfiles():
    from dadi import Spectrum_mod
    if 'open' in Spectrum_mod.__dict__:
        del Spectrum_mod.open
    Spectrum_mod.gzip = _real_gzip


# =====================================================================================================
# CrossHair harness functions (contracts in PEP316 docstrings); they are plain Python and are also run
# concretely as a smoke test.  Comparisons between symbolic strings go through code points (_seq).
# =====================================================================================================
_PAYLOAD = [0.0, 1.5, 2.5, 0.25, 3.0, 7.0, 0.5, 11.0]


def _seq(a, b):
    if len(a) != len(b):
        return False
    for x, y in zip(a, b):
        if ord(x) != ord(y):
            return False
    return True


def _lseq(a, b):
    if a is None or b is None:
        return a is None and b is None
    if len(a) != len(b):
        return False
    for x, y in zip(a, b):
        if not _seq(x, y):
            return False
    return True


def _mem_roundtrip(gz, shape, labels, folded, comments, maskbits, mask_corners):
    """to_file -> from_file through the in-memory file; returns True iff everything the property names is
    preserved.  Any exception propagates (CrossHair reports it with the inputs)."""
    import dadi
    _install_memfiles()
    n = 1
    for s in shape:
        n *= s
    data = numpy.array(_PAYLOAD[:n]).reshape(shape)
    mask = numpy.array([bool(b) for b in maskbits]).reshape(shape)
    fs = dadi.Spectrum(data, mask=mask, mask_corners=False, data_folded=folded, check_folding=False, pop_ids=labels)
    name = 'f.fs.gz' if gz else 'f.fs'
    fs.to_file(name, comment_lines=comments)
    g, cm = dadi.Spectrum.from_file(name, mask_corners=mask_corners, return_comments=True)
    if tuple(g.shape) != tuple(shape):
        return False
    if not _lseq(g.pop_ids, labels):
        return False
    if bool(g.folded) != bool(folded):
        return False
    if not _lseq(cm, [c.strip() for c in comments]):
        return False
    em = mask.copy()
    if mask_corners:
        em.flat[0] = em.flat[-1] = True
    if not bool(numpy.all(numpy.ma.getmaskarray(g) == em)):
        return False
    if not bool(numpy.all(g.data == data)):
        return False
    return True


def _oklab(s):
    return '"' not in s and chr(10) not in s and chr(13) not in s


def _okcom(s):
    return chr(10) not in s and chr(13) not in s


def ch_labels_plain(l1: str, l2: str, folded: bool) -> bool:
    """
    pre: FOLDSYM or not folded
    pre: len(l1) <= MAXL and len(l2) <= MAXL
    pre: _oklab(l1) and _oklab(l2)
    post: _
    """
    return _mem_roundtrip(False, (2, 2), [l1, l2], folded, [], [True, False, False, True], True)


def ch_labels_gz(l1: str, l2: str, folded: bool) -> bool:
    """
    pre: FOLDSYM or not folded
    pre: len(l1) <= MAXL and len(l2) <= MAXL
    pre: _oklab(l1) and _oklab(l2)
    post: _
    """
    return _mem_roundtrip(True, (2, 2), [l1, l2], folded, [], [True, False, False, True], True)


def ch_label1_plain(l1: str, folded: bool) -> bool:
    """
    pre: FOLDSYM or not folded
    pre: len(l1) <= MAXL + 1
    pre: _oklab(l1)
    post: _
    """
    return _mem_roundtrip(False, (3,), [l1], folded, [], [True, False, True], True)


def ch_label1_gz(l1: str, folded: bool) -> bool:
    """
    pre: FOLDSYM or not folded
    pre: len(l1) <= MAXL + 1
    pre: _oklab(l1)
    post: _
    """
    return _mem_roundtrip(True, (3,), [l1], folded, [], [True, False, True], True)


def ch_comment_plain(c: str, folded: bool) -> bool:
    """
    pre: len(c) <= MAXC
    pre: _okcom(c)
    post: _
    """
    return _mem_roundtrip(False, (2, 2), None, folded, [c], [True, False, False, True], True)


def ch_comment_gz(c: str, folded: bool) -> bool:
    """
    pre: len(c) <= MAXC
    pre: _okcom(c)
    post: _
    """
    return _mem_roundtrip(True, (2, 2), None, folded, [c], [True, False, False, True], True)


def ch_comments2_plain(c1: str, c2: str) -> bool:
    """
    pre: len(c1) <= MAXC - 1 and len(c2) <= MAXC - 1
    pre: _okcom(c1) and _okcom(c2)
    post: _
    """
    return _mem_roundtrip(False, (3,), ['p'], False, [c1, c2], [True, False, True], True)


def ch_comments2_gz(c1: str, c2: str) -> bool:
    """
    pre: len(c1) <= MAXC - 1 and len(c2) <= MAXC - 1
    pre: _okcom(c1) and _okcom(c2)
    post: _
    """
    return _mem_roundtrip(True, (3,), ['p'], False, [c1, c2], [True, False, True], True)


def ch_flags_plain(folded: bool, m0: bool, m1: bool, m2: bool, m3: bool, mask_corners: bool) -> bool:
    """
    post: _
    """
    return _mem_roundtrip(False, (2, 2), ['a b', 'c'], folded, ['x'], [m0, m1, m2, m3], mask_corners)


def ch_flags_gz(folded: bool, m0: bool, m1: bool, m2: bool, m3: bool, mask_corners: bool) -> bool:
    """
    post: _
    """
    return _mem_roundtrip(True, (2, 2), ['a b', 'c'], folded, ['x'], [m0, m1, m2, m3], mask_corners)


def ch_all_plain(l1: str, l2: str, folded: bool, c: str, m0: bool, m1: bool, m2: bool, m3: bool) -> bool:
    """
    pre: len(l1) <= MAXL and len(l2) <= MAXL and len(c) <= MAXC - 1
    pre: _oklab(l1) and _oklab(l2) and _okcom(c)
    post: _
    """
    return _mem_roundtrip(False, (2, 2), [l1, l2], folded, [c], [m0, m1, m2, m3], False)


def ch_all_gz(l1: str, l2: str, folded: bool, c: str, m0: bool, m1: bool, m2: bool, m3: bool) -> bool:
    """
    pre: len(l1) <= MAXL and len(l2) <= MAXL and len(c) <= MAXC - 1
    pre: _oklab(l1) and _oklab(l2) and _okcom(c)
    post: _
    """
    return _mem_roundtrip(True, (2, 2), [l1, l2], folded, [c], [m0, m1, m2, m3], False)


def _case_from_args(fn, a):
    """CrossHair arguments of harness `fn` -> the concrete round-trip case (same construction as the harness)."""
    gz = fn.endswith('_gz')
    kind = fn[3:].rsplit('_', 1)[0]
    c = dict(gz=gz, precision=16, values=None)
    if kind == 'labels':
        c.update(shape=[2, 2], labels=[a['l1'], a['l2']], folded=a['folded'], comments=[], mask=[1, 0, 0, 1],
                 mask_corners=True)
    elif kind == 'label1':
        c.update(shape=[3], labels=[a['l1']], folded=a['folded'], comments=[], mask=[1, 0, 1], mask_corners=True)
    elif kind == 'comment':
        c.update(shape=[2, 2], labels=None, folded=a['folded'], comments=[a['c']], mask=[1, 0, 0, 1],
                 mask_corners=True)
    elif kind == 'comments2':
        c.update(shape=[3], labels=['p'], folded=False, comments=[a['c1'], a['c2']], mask=[1, 0, 1],
                 mask_corners=True)
    elif kind == 'flags':
        c.update(shape=[2, 2], labels=['a b', 'c'], folded=a['folded'], comments=['x'],
                 mask=[int(a['m%d' % i]) for i in range(4)], mask_corners=a['mask_corners'])
    elif kind == 'all':
        c.update(shape=[2, 2], labels=[a['l1'], a['l2']], folded=a['folded'], comments=[a['c']],
                 mask=[int(a['m%d' % i]) for i in range(4)], mask_corners=False)
    else:
        raise ValueError(fn)
    c['folded'] = bool(c['folded'])
    c['mask_corners'] = bool(c['mask_corners'])
    return c


# deliberately benign inputs: the smoke run only validates the harness (in-memory model == real files); finding
# adversarial strings is the job of the symbolic search (and of the enumerated units)
_SMOKE_ARGS = dict(
    labels=dict(l1='ab', l2='c', folded=False), label1=dict(l1='xy', folded=False),
    comment=dict(c='hi', folded=False), comments2=dict(c1='a', c2='b'),
    flags=dict(folded=False, m0=True, m1=True, m2=False, m3=True, mask_corners=True),
    all=dict(l1='p', l2='q', folded=False, c='z', m0=True, m1=False, m2=True, m3=True))

_PLUGIN = '''"""CrossHair plugin written by checks/c14.py: keep `fmt % args` symbolic for '%s' of a (symbolic) str.
CrossHair's default patch of str.__mod__ realises the arguments, which makes exhaustive exploration of
`' "%s"' % label` impossible.  Model: printf-style formatting restricted to '%s' applied to a str (identity)
and '%%'; everything else falls back to realisation (CrossHair's own behaviour)."""


def _mk():
    from crosshair.core import _PATCH_REGISTRATIONS, deep_realize
    from crosshair.libimpl.builtinslib import AnySymbolicStr
    from crosshair.tracers import NoTracing

    def _fallback(fmt, other):
        r = deep_realize(other)
        f = deep_realize(fmt)
        with NoTracing():
            return str.__mod__(f, r)

    def _percent(self, other):
        with NoTracing():
            if not isinstance(self, (str, AnySymbolicStr)):
                raise TypeError
            args = other if type(other) is tuple else (other,)
            symbolic = type(self) is str and any(isinstance(a, AnySymbolicStr) for a in args)
        if not symbolic:
            return _fallback(self, other)
        out = ''
        i = 0
        k = 0
        n = len(self)
        while i < n:
            if self[i] != '%':
                j = self.find('%', i)
                if j < 0:
                    j = n
                out = out + self[i:j]
                i = j
                continue
            if i + 1 >= n:
                return _fallback(self, other)
            c2 = self[i + 1]
            with NoTracing():
                isstr = k < len(args) and isinstance(args[k], (str, AnySymbolicStr))
            if c2 == '%':
                out = out + '%'
            elif c2 == 's' and isstr:
                out = out + args[k]
                k += 1
            else:
                return _fallback(self, other)
            i += 2
        if k != len(args):
            return _fallback(self, other)
        return out

    _PATCH_REGISTRATIONS[str.__mod__] = _percent


_mk()
'''


def _run_crosshair(fn, budget_s, maxl, maxc, foldsym=True):
    """Runs CrossHair on checks.c14.<fn>; returns dict(kind='confirmed'|'cex'|'unknown'|'error', ...)."""
    tmp = tempfile.mkdtemp(prefix='c14_ch_')
    try:
        plug = os.path.join(tmp, 'c14_plugin.py')
        with open(plug, 'w') as f:
            f.write(_PLUGIN)
        mpl = os.path.join(tmp, 'mpl')
        os.makedirs(mpl)
        envv = dict(os.environ)
        envv['PYTHONPATH'] = os.pathsep.join([p for p in (envv.get('PYTHONPATH'), VERIF) if p])
        envv['MPLCONFIGDIR'] = mpl
        envv['C14_MAXL'] = str(maxl)
        envv['C14_MAXC'] = str(maxc)
        envv['C14_FOLDSYM'] = '1' if foldsym else '0'
        # --unblock EVERYTHING: importing dadi imports matplotlib, which creates its config dir / font cache; the
        # harness itself performs no I/O (in-memory files); cwd is a scratch directory.
        cmd = [sys.executable, '-m', 'crosshair', 'check', '--report_all', '--unblock', 'EVERYTHING',
               '--extra_plugin', plug, '--per_condition_timeout', str(budget_s),
               '--per_path_timeout', str(max(30, budget_s // 10)), 'checks.c14.' + fn]
        try:
            p = subprocess.run(cmd, cwd=tmp, env=envv, capture_output=True, text=True, timeout=3 * budget_s + 240)
        except subprocess.TimeoutExpired:
            return dict(kind='unknown', detail='crosshair wall-clock time-out')
        out = p.stdout
        rx = re.compile(r'^(.*?):(\d+): (error|info): (.*)$')
        for line in out.splitlines():
            m = rx.match(line)
            if not m:
                continue
            kind, msg = m.group(3), m.group(4)
            if kind == 'info' and msg.startswith('Confirmed over all paths'):
                return dict(kind='confirmed', detail=msg)
            if kind == 'info' and msg.startswith('Not confirmed'):
                return dict(kind='unknown', detail=msg)
            if kind == 'error':
                key = ' when calling %s(' % fn
                k = msg.find(key)
                if k < 0:
                    return dict(kind='error', detail=msg[:300])
                call = re.sub(r'\s\(which (returns|raises) .*\)$', '', msg[k + len(' when calling '):])
                try:
                    node = ast.parse(call, mode='eval').body
                    names = list(inspect.signature(globals()[fn]).parameters)
                    args = {}
                    for i, a in enumerate(node.args):
                        args[names[i]] = ast.literal_eval(a)
                    for kw in node.keywords:
                        args[kw.arg] = ast.literal_eval(kw.value)
                except Exception as e:  # unparsable report
                    return dict(kind='error', detail='cannot parse CrossHair report %r (%s)' % (msg[:300], e))
                return dict(kind='cex', args=args, detail=msg[:k][:200], call=call[:200])
        return dict(kind='error', detail='crosshair exit %s, stdout %r, stderr %r' % (
            p.returncode, out[-300:], p.stderr[-600:]))
    finally:
        shutil.rmtree(tmp, ignore_errors=True)


def _encode_case(case):
    return int.from_bytes(json.dumps(case, sort_keys=True).encode('utf-8'), 'big')


def _decode_case(code):
    n = int(code)
    return json.loads(n.to_bytes((n.bit_length() + 7) // 8, 'big').decode('utf-8'))


# =====================================================================================================
# real-file round trip + independent oracles (used by replays of CrossHair counterexamples and by all
# enumerated units)
# =====================================================================================================
EXACT_VALUES = [0.0, 1.0, 1.5, 2.25, 1e300, 1e-300, 123456789.125, 0.001, 7.0, 0.1, 3e-5, 98765.4321, 12.0, 1e15,
                5e-10, 2.5e-7]
# doubles that are not short decimals (exact only at precision >= 17; 16 digits give <= 6e-16 relative error)
GENERIC_VALUES = [1.0 / 3.0, 2.0 ** 0.5, 0.1 + 0.2, 1.0 - 2.0 ** -53, 5e-324, 1.7976931348623157e308,
                  2.2250738585072014e-308, math.pi * 1e100, math.e * 1e-200, 6.02214076e23 / 7.0]
NONFINITE = [float('nan'), float('inf'), float('-inf'), -0.0]


def _in_claim(vals, precision):
    """The property quantifies over 1e-300..1e300 (and non-finite values).  Doubles outside that range (subnormals,
    DBL_MAX) are kept only at precision >= 17, where 17 significant digits identify every double; with 16 digits
    DBL_MAX legitimately rounds up to a decimal beyond the double range (reads back as inf) - not a defect."""
    if precision >= 17:
        return list(vals)
    return [v if (v == 0 or v != v or abs(v) == float('inf') or 1e-300 <= abs(v) <= 1e300) else math.pi * 1e299
            for v in vals]

LABELS = ['a', 'pop 1', ' lead', 'trail ', 'two  spaces', 'folded', 'a folded b', 'unfolded', '#hash', "it's", '',
          '1 2', 'a\tb']
COMMENTS = ['plain comment', '  padded  ', '', '# double hash', 'with "quotes"', 'tab\tinside', '3 3 folded "x"',
            'x' * 200, '0 1 2']


def _flat_index_order(shape):
    """C order written out explicitly: fs[0,0,0] fs[0,0,1] ... (documented element order of the file)."""
    return list(itertools.product(*[range(s) for s in shape]))


def _same_float(a, b, precision, exact):
    a = float(a)
    b = float(b)
    if math.isnan(a) or math.isnan(b):
        return math.isnan(a) and math.isnan(b)
    if math.isinf(a) or math.isinf(b):
        return a == b
    if exact or precision >= 17:
        return a == b
    return abs(a - b) <= 6e-16 * abs(a) + 5e-324


def _build(case):
    import dadi
    shape = tuple(case['shape'])
    n = int(numpy.prod(shape))
    vals = case.get('values')
    if vals is None:
        vals = [_PAYLOAD[i % len(_PAYLOAD)] for i in range(n)]
    data = numpy.array([float(v) for v in vals], dtype=float).reshape(shape)
    mask = numpy.array([bool(b) for b in case['mask']]).reshape(shape)
    fs = dadi.Spectrum(data, mask=mask, mask_corners=False, data_folded=bool(case['folded']), check_folding=False,
                       pop_ids=(list(case['labels']) if case['labels'] is not None else None))
    return fs, data, mask


def _read_text(path, gz):
    if gz:
        with open(path, 'rb') as f:
            return _real_gzip.decompress(f.read()).decode('utf-8')
    with open(path, 'r', newline='', encoding='utf-8') as f:
        return f.read()


def _write_text(path, gz, text):
    if gz:
        with open(path, 'wb') as f:
            f.write(_real_gzip.compress(text.encode('utf-8')))
    else:
        with open(path, 'w', newline='', encoding='utf-8') as f:
            f.write(text)


def _independent_text(case, data, mask, newformat=True):
    """The documented file format written by hand (independent of to_file)."""
    p = case.get('precision', 16)
    shape = tuple(case['shape'])
    lines = ['#' + c for c in case['comments']]
    hdr = ' '.join(str(s) for s in shape)
    if newformat:
        hdr += ' folded' if case['folded'] else ' unfolded'
        if case['labels'] is not None:
            for lab in case['labels']:
                hdr += ' "' + lab + '"'
    lines.append(hdr)
    lines.append(' '.join(('%.' + str(max(p, 17)) + 'g') % data[idx] for idx in _flat_index_order(shape)))
    if newformat:
        lines.append(' '.join('1' if mask[idx] else '0' for idx in _flat_index_order(shape)))
    return '\n'.join(lines) + '\n'


def _parse_independent(text, case, data, mask, exact, fails, tag):
    """Independent reader of the documented format applied to what to_file wrote."""
    shape = tuple(case['shape'])
    p = case.get('precision', 16)
    lines = text.split('\n')
    if lines and lines[-1] == '':
        lines = lines[:-1]
    ncom = len(case['comments'])
    if len(lines) != ncom + 3:
        fails.append('%s: file has %d lines, expected %d comments + header + data + mask' % (tag, len(lines), ncom))
        return
    for i, c in enumerate(case['comments']):
        if not lines[i].startswith('#') or lines[i][1:].strip() != c.strip():
            fails.append('%s: comment line %d in file is %r' % (tag, i, lines[i][:60]))
    hdr = lines[ncom]
    toks = hdr.split()
    if [int(t) for t in toks[:len(shape)]] != list(shape):
        fails.append('%s: header dims %r' % (tag, toks[:len(shape)]))
    if len(toks) <= len(shape) or toks[len(shape)] != ('folded' if case['folded'] else 'unfolded'):
        fails.append('%s: header folding token %r' % (tag, toks[len(shape):len(shape) + 1]))
    quoted = hdr.split('"')[1::2]
    want = list(case['labels']) if case['labels'] is not None else []
    if quoted != want:
        fails.append('%s: header labels %r != %r' % (tag, quoted, want))
    dt = lines[ncom + 1].split()
    order = _flat_index_order(shape)
    if len(dt) != len(order):
        fails.append('%s: data line has %d entries' % (tag, len(dt)))
    else:
        for tok, idx in zip(dt, order):
            if not _same_float(data[idx], float(tok), p, exact):
                fails.append('%s: data entry %s written as %s for %r' % (tag, list(idx), tok, float(data[idx])))
                break
    mt = lines[ncom + 2].split()
    if len(mt) != len(order):
        fails.append('%s: mask line has %d entries' % (tag, len(mt)))
    else:
        for tok, idx in zip(mt, order):
            if tok not in ('0', '1') or (tok == '1') != bool(mask[idx]):
                fails.append('%s: mask entry %s written as %s' % (tag, list(idx), tok))
                break


def _compare(g, cm, case, data, mask, exact, fails, tag, newformat=True):
    import dadi
    shape = tuple(case['shape'])
    p = case.get('precision', 16)
    if not isinstance(g, dadi.Spectrum):
        fails.append('%s: result is %s' % (tag, type(g).__name__))
        return
    if tuple(g.shape) != shape:
        fails.append('%s: shape %r != %r' % (tag, tuple(g.shape), shape))
        return
    for idx in _flat_index_order(shape):
        if not _same_float(data[idx], g.data[idx], p, exact):
            fails.append('%s: value[%s] %r != %r (precision %d)' % (tag, list(idx), float(g.data[idx]),
                                                                    float(data[idx]), p))
            break
    em = mask.copy() if newformat else numpy.zeros(shape, dtype=bool)
    if case['mask_corners']:
        em.flat[0] = em.flat[-1] = True
    gm = numpy.ma.getmaskarray(g)
    for idx in _flat_index_order(shape):
        if bool(gm[idx]) != bool(em[idx]):
            fails.append('%s: mask[%s] %r != %r' % (tag, list(idx), bool(gm[idx]), bool(em[idx])))
            break
    wf = bool(case['folded']) if newformat else False
    if bool(g.folded) != wf or g.folded not in (True, False):
        fails.append('%s: folded %r != %r' % (tag, g.folded, wf))
    wl = (list(case['labels']) if case['labels'] is not None else None) if newformat else None
    gl = list(g.pop_ids) if g.pop_ids is not None else None
    if gl != wl:
        fails.append('%s: pop_ids %r != %r' % (tag, gl, wl))
    if cm is not None:
        wc = [c.strip() for c in case['comments']]
        if list(cm) != wc:
            fails.append('%s: comments %r != %r' % (tag, [c[:40] for c in cm], [c[:40] for c in wc]))


def real_roundtrip(case, tmpdir, exact=True, independent=True):
    """to_file -> from_file on REAL files with the REAL code; returns list of failure strings (empty = property
    holds for this case)."""
    import dadi
    fails = []
    fs, data, mask = _build(case)
    gz = bool(case['gz'])
    # the independent reader/writer assume ASCII (the encoding of open() is the locale's); non-ASCII text only occurs
    # in replays of CrossHair counterexamples, where the to_file -> from_file round trip itself is what is checked
    if not all(ord(ch) < 128 for t in list(case['labels'] or []) + list(case['comments']) for ch in t):
        independent = False
    p = case.get('precision', 16)
    path = os.path.join(tmpdir, 'rt.fs' + ('.gz' if gz else ''))
    wrote = False
    try:
        fs.to_file(path, precision=p, comment_lines=list(case['comments']))
        wrote = True
    except Exception as e:
        fails.append('to_file(%s) raised %s: %s' % ('*.gz' if gz else 'plain', type(e).__name__, str(e)[:100]))
    if wrote:
        try:
            g, cm = dadi.Spectrum.from_file(path, mask_corners=bool(case['mask_corners']), return_comments=True)
            _compare(g, cm, case, data, mask, exact, fails, 'round trip')
            g2 = dadi.Spectrum.from_file(path, mask_corners=bool(case['mask_corners']))
            _compare(g2, None, case, data, mask, exact, fails, 'round trip (no comments returned)')
        except Exception as e:
            fails.append('from_file(%s) raised %s: %s' % ('*.gz' if gz else 'plain', type(e).__name__, str(e)[:100]))
        if independent:
            try:
                text = _read_text(path, gz)
            except Exception as e:
                fails.append('written file unreadable: %s: %s' % (type(e).__name__, str(e)[:100]))
            else:
                _parse_independent(text, case, data, mask, exact, fails, 'file written by to_file')
    if independent or (not wrote and all(ord(ch) < 128 for t in list(case['labels'] or []) + list(case['comments']) for ch in t)):
        path2 = os.path.join(tmpdir, 'ind.fs' + ('.gz' if gz else ''))
        _write_text(path2, gz, _independent_text(case, data, mask))
        try:
            g, cm = dadi.Spectrum.from_file(path2, mask_corners=bool(case['mask_corners']), return_comments=True)
            c17 = dict(case, precision=max(p, 17))
            _compare(g, cm, c17, data, mask, exact, fails, 'independently written file')
        except Exception as e:
            fails.append('from_file(%s) on an independently written file raised %s: %s' % (
                '*.gz' if gz else 'plain', type(e).__name__, str(e)[:100]))
    return fails


# =====================================================================================================
# symbolic (CrossHair) units
# =====================================================================================================
def make_sym_body(fn, budget_s, maxl, maxc, foldsym=True):
    kind = fn[3:].rsplit('_', 1)[0]

    def body(env):
        tmpdir = tempfile.mkdtemp(prefix='c14_rt_')
        try:
            if env.symbolic:
                # smoke: the harness function itself (in-memory path) on a concrete input, then the same case on
                # real files.  On the unchanged plain path both hold; failures here are reported like any other.
                sm = _case_from_args(fn, _SMOKE_ARGS[kind])
                sm_real = real_roundtrip(sm, tmpdir)
                try:
                    try:
                        sm_mem = bool(globals()[fn](**_SMOKE_ARGS[kind]))
                        sm_exc = None
                    except Exception as e:
                        sm_mem, sm_exc = False, '%s: %s' % (type(e).__name__, e)
                finally:
                    _uninstall_memfiles()
                if sm_real:
                    code = env.real('cex_code')
                    env.assume(code == _encode_case(sm))
                    env.fail('smoke case %s' % json.dumps(sm, sort_keys=True)[:200], sm_real[0])
                    return
                if not sm_mem:
                    # in-memory model disagrees with real files on a concrete input: harness problem, not dadi's
                    raise S.ExplorationLimit('in-memory harness %s fails on the smoke input although real files round-trip '
                                             '(%s)' % (fn, sm_exc))
                env.holds('smoke: in-memory and real-file round trip agree on %s' % kind, True)
                r = _run_crosshair(fn, budget_s, maxl, maxc, foldsym)
                env.note('crosshair %s: %s %s' % (fn, r['kind'], r.get('detail', '')[:160]))
                if r['kind'] == 'confirmed':
                    env.holds('CrossHair: Confirmed over all paths: %s (|label|<=%d, |comment|<=%d)' % (fn, maxl, maxc),
                              True)
                elif r['kind'] == 'cex':
                    case = _case_from_args(fn, r['args'])
                    fails = real_roundtrip(case, tmpdir)
                    if fails:
                        code = env.real('cex_code')
                        env.assume(code == _encode_case(case))
                        env.fail('CrossHair counterexample %s' % r['call'], fails[0])
                    else:
                        raise S.ExplorationLimit(
                            'CrossHair reported %s for %s but the case round-trips on real files with the real code '
                            '(symbolic-string modelling artefact); explored, inconclusive' % (r['detail'], r['call']))
                elif r['kind'] == 'unknown':
                    raise S.ExplorationLimit('CrossHair explored %s for %d CPU-s without counterexample but did not '
                                             'exhaust the paths (%s): inconclusive' % (fn, budget_s, r['detail']))
                else:
                    raise S.ExplorationLimit('CrossHair failed on %s: %s' % (fn, r['detail']))
            else:
                code = getattr(env, 'values', {}).get('cex_code')
                case = _decode_case(code) if code is not None else _case_from_args(fn, _SMOKE_ARGS[kind])
                fails = real_roundtrip(case, tmpdir)
                env.note('replayed on real files: %s' % json.dumps(case, sort_keys=True))
                for f in fails[:3]:
                    env.fail('real-file replay of %s' % json.dumps(case, sort_keys=True)[:200], f)
                if not fails:
                    env.holds('real-file replay holds', True)
        finally:
            shutil.rmtree(tmpdir, ignore_errors=True)
    return body


# =====================================================================================================
# enumerated units (concrete enumeration)
# =====================================================================================================
class _Collector:
    """Turns case results into obligations; stops after the first failing case (the unit is already a violation)."""

    def __init__(self, env):
        self.env = env
        self.nfail = 0
        self.nok = 0

    def report(self, label, fails):
        if fails:
            if self.nfail < 1:
                self.env.fail(label, '; '.join(fails[:2]))
            self.nfail += 1
        else:
            self.nok += 1
            self.env.holds(label, True)

    @property
    def stop(self):
        return self.nfail >= 1


def _all_masks(n):
    for bits in itertools.product((0, 1), repeat=n):
        yield list(bits)


def _structured_masks(shape):
    n = int(numpy.prod(shape))
    ms = [[0] * n, [1] * n]
    c = [0] * n
    c[0] = c[-1] = 1
    ms.append(c)
    order = _flat_index_order(shape)
    ms.append([sum(idx) % 2 for idx in order])
    ms.append([1 - sum(idx) % 2 for idx in order])
    ms.append([1 if i < n // 2 else 0 for i in range(n)])
    ms.append([1 if idx[0] == 0 else 0 for idx in order])
    ms.append([1 if idx[-1] == shape[-1] - 1 else 0 for idx in order])
    for k in sorted(set([0, 1, n // 3, n // 2, n - 2, n - 1])):
        if 0 <= k < n:
            m = [0] * n
            m[k] = 1
            ms.append(m)
            ms.append([1 - b for b in m])
    out = []
    for m in ms:
        if m not in out:
            out.append(m)
    return out


def _masks_for(shape, full_upto):
    n = int(numpy.prod(shape))
    return list(_all_masks(n)) if n <= full_upto else _structured_masks(shape)


def _vals(n, start=0):
    return [EXACT_VALUES[(start + i) % len(EXACT_VALUES)] for i in range(n)]


def make_mask_body(shape, gz, full_upto):
    """every mask x folded x mask_corners x precision 16/17; labels/comments rotate through the lists."""
    def body(env):
        col = _Collector(env)
        tmpdir = tempfile.mkdtemp(prefix='c14_en_')
        nd = len(shape)
        n = int(numpy.prod(shape))
        try:
            k = 0
            for mask in _masks_for(shape, full_upto):
                for folded in (False, True):
                    for mc in (False, True):
                        for p in (16, 17):
                            labels = None if k % 5 == 4 else [LABELS[(k + j) % len(LABELS)] for j in range(nd)]
                            ncom = k % 6
                            comments = [COMMENTS[(k + j) % len(COMMENTS)] for j in range(ncom)]
                            case = dict(shape=list(shape), values=_vals(n, k), mask=mask, folded=folded,
                                        labels=labels, comments=comments, precision=p, gz=gz, mask_corners=mc)
                            k += 1
                            col.report('mask=%s folded=%d mask_corners=%d p=%d' % (''.join(map(str, mask)), folded, mc, p),
                                       real_roundtrip(case, tmpdir, independent=(k % 4 == 0 or k < 8)))
                            if col.stop:
                                return
        finally:
            shutil.rmtree(tmpdir, ignore_errors=True)
    return body


def make_text_body(shape, gz, full_product):
    """label lists x number of comments x folded (real .fold() output and plain flag); masks rotate."""
    def body(env):
        import dadi
        col = _Collector(env)
        tmpdir = tempfile.mkdtemp(prefix='c14_en_')
        nd = len(shape)
        n = int(numpy.prod(shape))
        try:
            if full_product and nd <= 2:
                lablists = [list(t) for t in itertools.product(LABELS, repeat=nd)]
            else:
                lablists = [[LABELS[(i + 3 * j) % len(LABELS)] for j in range(nd)] for i in range(len(LABELS))]
                lablists += [[LABELS[i]] * nd for i in range(len(LABELS))]
            lablists.append(None)
            masks = _structured_masks(shape)
            k = 0
            for labels in lablists:
                for ncom in range(6):
                    comments = [COMMENTS[(k + j) % len(COMMENTS)] for j in range(ncom)]
                    folded = bool(k % 2)
                    case = dict(shape=list(shape), values=_vals(n, k), mask=masks[k % len(masks)], folded=folded,
                                labels=labels, comments=comments, precision=16 + (k // 2) % 2, gz=gz,
                                mask_corners=bool((k // 3) % 2))
                    k += 1
                    col.report('labels=%r ncomments=%d folded=%d' % (labels, ncom, folded),
                               real_roundtrip(case, tmpdir, independent=(k % 3 == 0)))
                    if col.stop:
                        return
            # spectra produced by the library's own fold() (consistent folded mask), with labels
            for li, labels in enumerate(lablists[:6]):
                fs0 = dadi.Spectrum(numpy.array(_vals(n, li)).reshape(shape), pop_ids=labels)
                ff = fs0.fold()
                case = dict(shape=list(shape), values=[float(x) for x in ff.data.ravel()],
                            mask=[int(b) for b in numpy.ma.getmaskarray(ff).ravel()], folded=True, labels=labels,
                            comments=['folded by fold()'], precision=17, gz=gz, mask_corners=True)
                col.report('fold() output labels=%r' % (labels,), real_roundtrip(case, tmpdir, exact=False))
                if col.stop:
                    return
        finally:
            shutil.rmtree(tmpdir, ignore_errors=True)
    return body


def make_values_body(gz):
    """extreme, non-finite and generic doubles x precision 16, 17, 18, 25."""
    def body(env):
        col = _Collector(env)
        tmpdir = tempfile.mkdtemp(prefix='c14_en_')
        try:
            pools = [('exact', EXACT_VALUES, True), ('generic', GENERIC_VALUES, False),
                     ('nonfinite', NONFINITE + [1.5, 2.0], True),
                     ('negative', [-v for v in EXACT_VALUES[1:9]], True),
                     ('mixed', GENERIC_VALUES[:4] + NONFINITE + EXACT_VALUES[4:8], False)]
            for pname, pool, exact in pools:
                for shape in ((len(pool),), (2, len(pool) // 2), (1, 2, len(pool) // 2)):
                    n = int(numpy.prod(shape))
                    for p in (16, 17, 18, 25):
                        for mi, mask in enumerate(([0] * n, [1, 0] * (n // 2) + [0] * (n % 2))):
                            case = dict(shape=list(shape), values=_in_claim(pool[:n], p), mask=mask, folded=False,
                                        labels=['p%d' % i for i in range(len(shape))], comments=['v'], precision=p,
                                        gz=gz, mask_corners=False)
                            col.report('%s shape=%s p=%d mask%d' % (pname, list(shape), p, mi),
                                       real_roundtrip(case, tmpdir, exact=exact))
                            if col.stop:
                                return
        finally:
            shutil.rmtree(tmpdir, ignore_errors=True)
    return body


def make_oldformat_body(shapes):
    """pre-1.3 format: to_file(foldmaskinfo=False) -> from_file, independently written old-format file -> from_file,
    and what to_file(foldmaskinfo=False) writes parsed independently."""
    def body(env):
        import dadi
        col = _Collector(env)
        tmpdir = tempfile.mkdtemp(prefix='c14_en_')
        try:
            k = 0
            for shape in shapes:
                n = int(numpy.prod(shape))
                for mask in _structured_masks(shape)[:6]:
                    for folded in (False, True):
                        for mc in (False, True):
                            for p in (16, 17):
                                ncom = k % 6
                                case = dict(shape=list(shape), values=_vals(n, k), mask=mask, folded=folded,
                                            labels=[LABELS[(k + j) % len(LABELS)] for j in range(len(shape))],
                                            comments=[COMMENTS[(k + j) % len(COMMENTS)] for j in range(ncom)],
                                            precision=p, gz=False, mask_corners=mc)
                                k += 1
                                fails = []
                                fs, data, m = _build(case)
                                path = os.path.join(tmpdir, 'old.fs')
                                try:
                                    fs.to_file(path, precision=p, comment_lines=case['comments'], foldmaskinfo=False)
                                    g, cm = dadi.Spectrum.from_file(path, mask_corners=mc, return_comments=True)
                                    _compare(g, cm, case, data, m, True, fails, 'old-format round trip', newformat=False)
                                    lines = _read_text(path, False).split('\n')
                                    if lines[-1] == '':
                                        lines = lines[:-1]
                                    if len(lines) != ncom + 2:
                                        fails.append('old format file has %d lines' % len(lines))
                                    elif [int(t) for t in lines[ncom].split()] != list(shape):
                                        fails.append('old format header %r' % lines[ncom])
                                    else:
                                        toks = lines[ncom + 1].split()
                                        order = _flat_index_order(shape)
                                        if len(toks) != len(order) or any(
                                                not _same_float(data[idx], float(t), p, True)
                                                for t, idx in zip(toks, order)):
                                            fails.append('old format data line %r' % lines[ncom + 1][:80])
                                    path2 = os.path.join(tmpdir, 'old_ind.fs')
                                    _write_text(path2, False, _independent_text(case, data, m, newformat=False))
                                    g, cm = dadi.Spectrum.from_file(path2, mask_corners=mc, return_comments=True)
                                    _compare(g, cm, dict(case, precision=17), data, m, True, fails,
                                             'independently written old-format file', newformat=False)
                                except Exception as e:
                                    fails.append('old format raised %s: %s' % (type(e).__name__, str(e)[:100]))
                                col.report('old shape=%s mask=%s folded=%d mc=%d p=%d' % (
                                    list(shape), ''.join(map(str, mask)), folded, mc, p), fails)
                                if col.stop:
                                    return
        finally:
            shutil.rmtree(tmpdir, ignore_errors=True)
    return body


def make_array_body(shapes):
    """Numerics.array_to_file / array_from_file: file names and open file objects, comments, masked input
    (masked entries are written as nan), precision 16/17, cross-reading with Spectrum.from_file / to_file."""
    def body(env):
        import dadi
        from dadi import Numerics
        col = _Collector(env)
        tmpdir = tempfile.mkdtemp(prefix='c14_en_')
        try:
            k = 0
            pools = [(EXACT_VALUES, True), (GENERIC_VALUES + EXACT_VALUES, False), (NONFINITE + EXACT_VALUES, True)]
            for shape in shapes:
                n = int(numpy.prod(shape))
                order = _flat_index_order(shape)
                for pool, exact in pools:
                    for p in (16, 17):
                        for ncom in (0, 1, 5):
                            for via in ('name', 'fileobj', 'fileobj-seq'):
                                k += 1
                                fails = []
                                vals = _in_claim([pool[(k + i) % len(pool)] for i in range(n)], p)
                                data = numpy.array(vals, dtype=float).reshape(shape)
                                # memory layout of the array handed to the writer must not matter (index order is what
                                # is written): rotate through C-ordered, Fortran-ordered, transposed-view and reversed-view
                                # inputs holding the same values at the same indices
                                lay = k % 4
                                if lay == 1:
                                    data = numpy.asfortranarray(data)
                                elif lay == 2 and data.ndim >= 2:
                                    data = numpy.ascontiguousarray(data.T).T
                                elif lay == 3:
                                    data = numpy.ascontiguousarray(data[::-1])[::-1]
                                comments = [COMMENTS[(k + j) % len(COMMENTS)] for j in range(ncom)]
                                path = os.path.join(tmpdir, 'arr.txt')
                                try:
                                    if via == 'name':
                                        Numerics.array_to_file(data, path, precision=p, comment_lines=comments)
                                        back, cm = Numerics.array_from_file(path, return_comments=True)
                                        back2 = Numerics.array_from_file(path)
                                    elif via == 'fileobj-seq':
                                        # several arrays stored one after the other through ONE open file object and
                                        # read back through one handle: each read continues where the last one stopped
                                        first = numpy.arange(1.0, 1.0 + 2 * (k % 3 + 1)).reshape((2, k % 3 + 1))
                                        with open(path, 'w') as fid:
                                            Numerics.array_to_file(first, fid, precision=p, comment_lines=['first'])
                                            Numerics.array_to_file(data, fid, precision=p, comment_lines=comments)
                                            Numerics.array_to_file(data, fid, precision=p, comment_lines=comments)
                                        with open(path, 'r') as fid:
                                            f0, c0 = Numerics.array_from_file(fid, return_comments=True)
                                            back, cm = Numerics.array_from_file(fid, return_comments=True)
                                            back2 = Numerics.array_from_file(fid)
                                        if tuple(f0.shape) != first.shape or not numpy.array_equal(f0, first) \
                                                or list(c0) != ['first']:
                                            fails.append('first array of a sequence read back as %r %r' % (f0.tolist(), c0))
                                        Numerics.array_to_file(data, path, precision=p, comment_lines=comments)
                                    else:
                                        with open(path, 'w') as fid:
                                            Numerics.array_to_file(data, fid, precision=p, comment_lines=comments)
                                        with open(path, 'r') as fid:
                                            back, cm = Numerics.array_from_file(fid, return_comments=True)
                                        with open(path, 'r') as fid:
                                            back2 = Numerics.array_from_file(fid)
                                    if tuple(back.shape) != tuple(shape) or tuple(back2.shape) != tuple(shape):
                                        fails.append('array shape %r' % (back.shape,))
                                    else:
                                        for idx in order:
                                            if not _same_float(data[idx], back[idx], p, exact) or \
                                                    not _same_float(data[idx], back2[idx], p, exact):
                                                fails.append('array value[%s] %r != %r' % (list(idx), back[idx], data[idx]))
                                                break
                                    if list(cm) != [c.strip() for c in comments]:
                                        fails.append('array comments %r' % ([c[:30] for c in cm],))
                                    # the generic array file is a pre-1.3 spectrum file: read consistently
                                    g, cm2 = dadi.Spectrum.from_file(path, mask_corners=False, return_comments=True)
                                    case = dict(shape=list(shape), folded=False, labels=None, comments=comments,
                                                precision=p, mask_corners=False)
                                    _compare(g, cm2, case, data, numpy.zeros(shape, bool), exact, fails,
                                             'array file read by Spectrum.from_file', newformat=False)
                                except Exception as e:
                                    fails.append('array file raised %s: %s' % (type(e).__name__, str(e)[:100]))
                                col.report('array shape=%s p=%d ncom=%d via=%s pool%d' % (
                                    list(shape), p, ncom, via, pools.index((pool, exact))), fails)
                                if col.stop:
                                    return
                # masked input: masked entries -> nan, the others unchanged; Spectrum old format -> array_from_file
                for mask in _structured_masks(shape)[:8]:
                    k += 1
                    fails = []
                    case = dict(shape=list(shape), values=_vals(n, k), mask=mask, folded=False, labels=None,
                                comments=['m'], precision=17, gz=False, mask_corners=False)
                    fs, data, m = _build(case)
                    path = os.path.join(tmpdir, 'arrm.txt')
                    try:
                        Numerics.array_to_file(fs, path, precision=17, comment_lines=['m'])
                        back = Numerics.array_from_file(path)
                        if tuple(back.shape) != tuple(shape):
                            fails.append('masked array shape %r' % (back.shape,))
                        else:
                            for idx in order:
                                if m[idx]:
                                    if not math.isnan(back[idx]):
                                        fails.append('masked entry %s written as %r, not nan' % (list(idx), back[idx]))
                                        break
                                elif back[idx] != data[idx]:
                                    fails.append('unmasked entry %s %r != %r' % (list(idx), back[idx], data[idx]))
                                    break
                        fs.to_file(path, precision=17, comment_lines=['c1', ' c2 '], foldmaskinfo=False)
                        back, cm = Numerics.array_from_file(path, return_comments=True)
                        if tuple(back.shape) != tuple(shape) or any(back[idx] != data[idx] for idx in order):
                            fails.append('old-format spectrum file read by array_from_file differs')
                        if list(cm) != ['c1', 'c2']:
                            fails.append('old-format spectrum file comments via array_from_file %r' % (cm,))
                    except Exception as e:
                        fails.append('masked array file raised %s: %s' % (type(e).__name__, str(e)[:100]))
                    col.report('masked-array shape=%s mask=%s' % (list(shape), ''.join(map(str, mask))), fails)
                    if col.stop:
                        return
                    # the same with the spectrum built from INTEGER-typed counts (a float Spectrum all the same): masked
                    # entries still go into the generic file as nan, the counts come back unchanged
                    fails = []
                    ints = numpy.array([(7 * k + 3 * i) % 23 for i in range(n)], dtype=int).reshape(shape)
                    mk = numpy.array(mask, dtype=bool).reshape(shape)
                    try:
                        fsi = dadi.Spectrum(ints, mask=mk.copy(), mask_corners=False)
                        Numerics.array_to_file(fsi, path, precision=17, comment_lines=['i'])
                        back = Numerics.array_from_file(path)
                        if tuple(back.shape) != tuple(shape):
                            fails.append('integer-built masked array shape %r' % (back.shape,))
                        else:
                            for idx in order:
                                if mk[idx]:
                                    if not math.isnan(back[idx]):
                                        fails.append('integer-built: masked entry %s written as %r, not nan' % (
                                            list(idx), back[idx]))
                                        break
                                elif back[idx] != ints[idx]:
                                    fails.append('integer-built: unmasked entry %s %r != %r' % (list(idx), back[idx],
                                                                                              ints[idx]))
                                    break
                    except Exception as e:
                        fails.append('integer-built masked array file raised %s: %s' % (type(e).__name__, str(e)[:100]))
                    col.report('masked-int-array shape=%s mask=%s' % (list(shape), ''.join(map(str, mask))), fails)
                    if col.stop:
                        return
        finally:
            shutil.rmtree(tmpdir, ignore_errors=True)
    return body


def make_pickle_body(shapes, full_upto):
    """pickle protocols 0-5 and copy.deepcopy: data bitwise (incl. non-finite), mask EXACT (no corner re-masking),
    folded, labels, extrap_x, type."""
    def body(env):
        import copy
        import dadi
        col = _Collector(env)
        pools = [EXACT_VALUES, GENERIC_VALUES + NONFINITE]
        k = 0
        for shape in shapes:
            n = int(numpy.prod(shape))
            order = _flat_index_order(shape)
            for mask in _masks_for(shape, full_upto):
                for folded in (False, True):
                    k += 1
                    pool = pools[k % 2]
                    labels = None if k % 4 == 3 else [LABELS[(k + j) % len(LABELS)] for j in range(len(shape))]
                    case = dict(shape=list(shape), values=[pool[(k + i) % len(pool)] for i in range(n)], mask=mask,
                                folded=folded, labels=labels)
                    fs, data, m = _build(case)
                    ex = None if k % 3 == 0 else 0.125 * k
                    fs.extrap_x = ex
                    fails = []
                    for proto in list(range(pickle.HIGHEST_PROTOCOL + 1)) + ['deepcopy']:
                        try:
                            g = copy.deepcopy(fs) if proto == 'deepcopy' else pickle.loads(pickle.dumps(fs, proto))
                        except Exception as e:
                            fails.append('pickle protocol %s raised %s: %s' % (proto, type(e).__name__, str(e)[:80]))
                            break
                        tag = 'pickle protocol %s' % proto
                        if not isinstance(g, dadi.Spectrum) or tuple(g.shape) != tuple(shape):
                            fails.append('%s: type/shape %s %r' % (tag, type(g).__name__, getattr(g, 'shape', None)))
                            break
                        gm = numpy.ma.getmaskarray(g)
                        for idx in order:
                            a, b = float(data[idx]), float(g.data[idx])
                            if not (a == b or (math.isnan(a) and math.isnan(b))) or \
                                    math.copysign(1, a) != math.copysign(1, b) and not math.isnan(a):
                                fails.append('%s: value[%s] %r != %r' % (tag, list(idx), b, a))
                                break
                            if bool(gm[idx]) != bool(m[idx]):
                                fails.append('%s: mask[%s] %r != %r' % (tag, list(idx), bool(gm[idx]), bool(m[idx])))
                                break
                        if bool(g.folded) != folded:
                            fails.append('%s: folded %r' % (tag, g.folded))
                        if (list(g.pop_ids) if g.pop_ids is not None else None) != labels:
                            fails.append('%s: pop_ids %r != %r' % (tag, g.pop_ids, labels))
                        if g.extrap_x != ex:
                            fails.append('%s: extrap_x %r != %r' % (tag, g.extrap_x, ex))
                        if fails:
                            break
                    col.report('pickle shape=%s mask=%s folded=%d' % (list(shape), ''.join(map(str, mask)), folded), fails)
                    if col.stop:
                        return
    return body


# =====================================================================================================
SHAPES_QUICK = [(1,), (2,), (3,), (5,), (1, 1), (2, 2), (1, 3), (3, 1), (2, 3), (2, 1, 2), (2, 2, 2), (1, 2, 1, 2),
                (2, 1, 1, 2), (1, 1, 2, 1, 2), (2, 1, 2, 1, 1), (1, 1, 1, 1, 1), (2, 2, 1, 2)]
SHAPES_THOROUGH = SHAPES_QUICK + [(8,), (3, 3), (4, 4), (3, 2, 3), (1, 4, 1), (2, 2, 2, 2), (3, 1, 2, 2),
                                  (2, 2, 2, 2, 2), (1, 3, 1, 3, 1), (2, 1, 3, 1, 2)]


def units(tier, seed):
    us = []
    thorough = (tier == 'thorough')
    # Bounds chosen from measured CrossHair CPU times (quick: 13-80 CPU-s per harness, budget 120; thorough: up to
    # ~350 CPU-s, budget 700).  `all` (the combined harness of DESIGN.md) is the honest stretch: it is explored for the
    # whole budget and normally ends "Not confirmed".
    budget = 700 if thorough else 120
    maxl = 2 if thorough else 1       # labels: |l1|,|l2| <= maxl ; label1: |l1| <= maxl + 1
    maxc = 4 if thorough else 3       # comment: |c| <= maxc ; comments2/all: <= maxc - 1
    symfns = ['labels', 'label1', 'comment', 'flags', 'all'] + (['comments2'] if thorough else [])
    for kind in symfns:
        foldsym = (kind != 'labels')  # two-label harness: folded fixed False (symbolic in label1/comment/flags/all)
        for sfx in ('plain', 'gz'):
            fn = 'ch_%s_%s' % (kind, sfx)
            us.append(H.Unit('sym-%s-%s' % (kind, sfx), make_sym_body(fn, budget, maxl, maxc, foldsym),
                             params=dict(technique='CrossHair symbolic execution (z3 strings/bools)', harness=fn,
                                         max_label_len=maxl + (1 if kind == 'label1' else 0),
                                         max_comment_len=maxc - (1 if kind in ('all', 'comments2') else 0),
                                         folded_symbolic=foldsym, budget_cpu_s=budget),
                             min_obligations=2, timeout_s=4 * budget + 300, stretch=True, expect_paths=1))
    shapes = SHAPES_THOROUGH if thorough else SHAPES_QUICK
    full_upto = 9 if thorough else 6
    for shape in shapes:
        sn = 'x'.join(map(str, shape))
        nm = len(_masks_for(shape, full_upto))
        for gz in (False, True):
            sfx = 'gz' if gz else 'plain'
            us.append(H.Unit('enum-mask-%s-%s' % (sn, sfx), make_mask_body(shape, gz, full_upto),
                             params=dict(technique='concrete enumeration', shape=list(shape), gz=gz, masks=nm),
                             min_obligations=nm * 8, timeout_s=900, expect_paths=1))
    text_shapes = [(3,), (2, 2), (2, 1, 2), (1, 2, 1, 2), (2, 1, 1, 2, 1)] + ([(4, 3), (2, 2, 2)] if thorough else [])
    for shape in text_shapes:
        sn = 'x'.join(map(str, shape))
        for gz in (False, True):
            sfx = 'gz' if gz else 'plain'
            us.append(H.Unit('enum-text-%s-%s' % (sn, sfx), make_text_body(shape, gz, thorough or len(shape) == 1),
                             params=dict(technique='concrete enumeration', shape=list(shape), gz=gz),
                             min_obligations=6 * 14, timeout_s=900, expect_paths=1))
    for gz in (False, True):
        us.append(H.Unit('enum-values-%s' % ('gz' if gz else 'plain'), make_values_body(gz),
                         params=dict(technique='concrete enumeration', gz=gz), min_obligations=100, timeout_s=600,
                         expect_paths=1))
    groups = [shapes[i::3] for i in range(3)]
    for gi, grp in enumerate(groups):
        us.append(H.Unit('enum-oldformat-%d' % gi, make_oldformat_body(grp),
                         params=dict(technique='concrete enumeration', shapes=[list(s) for s in grp]),
                         min_obligations=20, timeout_s=900, expect_paths=1))
        us.append(H.Unit('enum-array-%d' % gi, make_array_body(grp),
                         params=dict(technique='concrete enumeration', shapes=[list(s) for s in grp]),
                         min_obligations=20, timeout_s=900, expect_paths=1))
        us.append(H.Unit('enum-pickle-%d' % gi, make_pickle_body(grp, full_upto),
                         params=dict(technique='concrete enumeration', shapes=[list(s) for s in grp]),
                         min_obligations=20, timeout_s=900, expect_paths=1))
    return us
