"""Call-history chains: unit bodies of a check run one after the other in ONE process with fresh, independently named
inputs (engine.harness.chain).  A single name = that unit twice (same shapes, different values: detects state kept
between calls - memoisation keyed on lengths / shapes / sample sizes only, reused buffers, mutated module tables); a list
= those units in that order (same lengths, different grids / masks / options).  A '?' prefix marks units that only
exist in one tier.  A name that is not an exact unit name is a regular expression (unit names that depend on
the run's seed); unknown names / patterns without a match are an error."""

HIST = {
    'C01': ['heterozygosity-L4-const', 'heterozygosity-L4-func', 'stationary-L4-const-steps1-delj0',
            'stationary-L4-func-steps1-delj0'],
    'C02': ['driver-1pop-const-L4-frozen-', 'driver-1pop-func-L4-frozen-', 'driver-2pop-const-L4-frozen--',
            'driver-2pop-func-L4-frozen--', 'driver-3pop-const-L3-frozen---',
            ['driver-2pop-const-L4-frozen---delj1', 'driver-2pop-const-L4-frozen--']],
    'C03': [[r'linear-1pop-L4-g\d-p\d-steps2-const--', r'linear-1pop-L4-g\d-p\d-steps3-const--'],
            [r'linear-1pop-L4-g\d-p\d-steps2-func--', r'linear-1pop-L4-g\d-p\d-steps3-func--'],
            [r'linear-2pop-L4-g\d-p\d-steps2-const---', r'linear-2pop-L4-g\d-p\d-steps3-const---'],
            [r'linear-2pop-L4-g\d-p\d-steps2-func---', r'linear-2pop-L4-g\d-p\d-steps3-func---'],
            [r'?linear-3pop-L3-g\d-p\d-steps2-const----', r'?linear-3pop-L3-g\d-p\d-steps2-const----'],
            [r'?linear-3pop-L4-g\d-p\d-steps2-const----', r'?linear-3pop-L4-g\d-p\d-steps2-const----'],
            'scale-phi_1D-L4'],
    'C04': [[r'e2e-frozen-2pop-L4-g\d-F--p\d-steps\d', r'e2e-frozen-2pop-L4-g\d--F-p\d-steps\d'],
            [r'e2e-isolated-2pop-L4-g\d-S1-p\d-const', r'e2e-isolated-2pop-L4-g\d-S2-p\d-const'],
            [r'e2e-isolated-3pop-L4-g\d-S1-p\d-const', r'e2e-isolated-3pop-L4-g\d-S2-p\d-const'],
            [r'e2e-isolated-3pop-L4-g\d-S1-p\d-func', r'e2e-isolated-3pop-L4-g\d-S2-p\d-func'],
            'marginalisation-real-code-vs-oracle', ['flags-2pop-const---', 'flags-2pop-const--N']],
    'C05': ['entries-analytic-S-L4-n3', 'entries-direct-S-L4-n3', 'entries-direct-het-xx-S-L4-n2',
            'project-analytic-S-L4-n3', 'admix-symbolic-rows2-AB-L3x4-n2x2',
            ['entries-direct-CAB-L3x3x3-n1x2x1', 'admix-symbolic-rows1-ABC-L3x3x3-n1x2x1'],
            ['entries-analytic-CC-L3x3-n1x2', 'linear-admix-symbolic-AB-L3x3-n1x2'],
            ['inbreeding-F0-AB-L3x4-n2x2', 'inbreeding-F0-AB-L3x4-n2x2-het-yy'],
            # same rational grids and sample sizes, ascertained and plain calls mixed (tables shared between calls)
            'entries-direct-het-yy-BC-L4x4-n1x2',
            ['entries-direct-het-xx-BC-L4x4-n1x2', 'entries-direct-BC-L4x4-n1x2', 'entries-direct-het-yy-BC-L4x4-n1x2'],
            ['entries-direct-het-xx-S-L4-n2', 'entries-direct-S-L4-n2'],
            # inbreeding sampling with different ploidies and the same (allele count, individuals) in one process, both
            # orders (partition tables memoised per ploidy); stretch units, so the chains are stretch too
            ['stretch-betabinom-convolution-ploidy3-nind2', 'stretch-betabinom-convolution-ploidy2-nind2'],
            ['stretch-betabinom-convolution-ploidy2-nind2', 'stretch-betabinom-convolution-ploidy3-nind2']],
    'C07': ['k1-lin-spectrum-perm0', 'k2-lin-list-perm01', 'k2-lin-attr-perm01', 'labels-log-spectrum-k1-3'],
    'C08': ['values1d-n03', 'twostage1d-n03', 'values2d-1x3-all', 'values3d-1x2x1-all', 'folded-3-all',
            'weights-n01-10', ['values2d-1x2-all', 'folded-2-all', 'values1d-n02']],
    'C09': ['fold-4-part1of1', 'unfold-4-part1of1', 'misid-3-part1of1', 'ops-3-unfolded-part1of1', 'slice-3x4-part1of1',
            ['fold-3-part1of1', 'fold-4-part1of1', 'unfold-3-part1of1']],
    'C10': ['marginalize-2x3-labels-unfolded-part0', 'filter_pops-2x3-unfolded-part0',
            'reorder_pops-2x3-labels-unfolded-part0', 'combine_pops-2x3-labels-part0', 'combine_two_pops-2x3-part0',
            'scramble_pop_ids-2x3-labels-unfolded', 'commute-fold-2x3'],
    'C12': ['proj-n2-vv', 'nlopt-n1-v-lin-both-multinom', 'scipy-optimize_log-n1-v-none-poisson-full',
            ['nlopt-n1-v-lin-none-poisson', 'nlopt-n1-v-log-both-multinom']],
    'C13': ['cd-proj2-pol-mc0', 'stat-n3-corners', 'fst-2x2-corners', 'boot-4-K2-pol-mc1', 'frag-1-chr_2-plain',
            'vcf-4samples-ploidy2-GT-filter1-nosub', ['cd-proj2-pol-mc1', 'cd-proj2-unpol-mc0']],
    'C17': ['1d-integrate-N2-ext', '2d-integrate-N2-asym-noext', 'mix-mixture-N3.2-sym', 'c-biv-lognormal-2x2-params3',
            ['1d-integrate-N2-noext', '1d-integrate-N2-ext']],
    'C18': ['partitions-n4', 'projmat-F0-n4', 'nocall-D3-n2', 'heterr-D3-s2', 'pipeline-1pop-D3-seq4-sub2',
            ['projmat-F0-n4', 'pipeline-1pop-D3-seq4-sub2', 'projmat-F0-n4']],
    'C19': ['hess-k1', 'grad-quad-k1', '?helem-k2-00-default', '?helem-k3-00-default'],
}
