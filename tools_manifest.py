#!/usr/bin/env python3
"""Regenerates MANIFEST.json from the table below (kept valid at all times)."""
import json, os
PY = '/verif/check'
CLAIMED = {}
NA = {}
def claim(pid, text, note, ref, technique='symbolic execution of the real code + z3 (bounded)'):
    CLAIMED[pid] = dict(text=text, note=note, ref=ref, technique=technique)
exec(open(os.path.join(os.path.dirname(__file__), 'manifest_table.py')).read())
checks = []
for pid in sorted(CLAIMED):
    c = CLAIMED[pid]
    checks.append(dict(property_id=pid,
                       quick_cmd='%s %s --tier quick' % (PY, pid),
                       thorough_cmd='%s %s --tier thorough' % (PY, pid),
                       evidence_file='/verif/evidence/%s.json' % pid,
                       replay_cmd_template='%s %s --replay {path}' % (PY, pid),
                       engine='symreal',
                       level_claimed=dict(category='other', text=c['text'], design_ref=c['ref']),
                       level_note=c['note'], technique=c['technique']))
m = dict(version=1, setup_cmd='bash /verif/setup.sh',
         hooks=dict(guard='DADI_VERIF', enable='no source hooks: all instrumentation is harness-side module-attribute substitution inside the checking process (DADI_VERIF is unused)',
                    baseline_off_cmd='cd /repo && /venv/bin/python -m pytest -ra -q -p no:cacheprovider --timeout=900 --continue-on-collection-errors',
                    source_commits=[], add_only=True),
         engines=[dict(name='symreal', path='/verif/engine', serves_properties=sorted(CLAIMED),
                       kind_free_text='symbolic-real execution of the unmodified Python (numpy object arrays of z3 Reals, concolic path exploration) and of the C kernels (clang-14 LLVM IR interpreter), obligations decided by z3; counterexamples replayed on the real float code')],
         checks=checks,
         notes='Solver-based bounded checking; every verdict is "for all values within the stated shapes/bounds" (see DESIGN.md section 1). Exit 3 = inconclusive (never success, never violation).',
         not_applicable=[dict(property_id=k, reason=v) for k, v in sorted(NA.items())])
json.dump(m, open(os.path.join(os.path.dirname(__file__), 'MANIFEST.json'), 'w'), indent=1)
print('claimed', sorted(CLAIMED), 'n/a', sorted(NA))
