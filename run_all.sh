#!/bin/bash
# Runs every claimed check's quick (or $1) tier sequentially; prints exit code and wall time per property.
T=${1:-quick}
cd "$(dirname "$0")"
for p in $(python3 -c "import json; print(' '.join(c['property_id'] for c in json.load(open('MANIFEST.json'))['checks']))"); do
  s=$(date +%s)
  "$(dirname "$0")"/check $p --tier $T > /tmp/verif_run_$p.log 2>&1; rc=$?
  e=$(date +%s)
  echo "$p rc=$rc wall=$((e-s))s $(tail -1 /tmp/verif_run_$p.log | cut -c1-160)"
done
