#!/bin/bash
# Build the checking environment offline: an overlay venv of /venv (which holds dadi's own
# dependencies and the repo in development mode) plus z3-solver / crosshair-tool / jsonschema
# from the offline wheelhouse.  Idempotent.
set -e
cd "$(dirname "$0")"
V=/verif/.venv
if [ ! -x $V/bin/python ] || ! $V/bin/python -c "import z3, crosshair, numpy, scipy, jsonschema" 2>/dev/null; then
  rm -rf $V
  /venv/bin/python -m venv $V
  SP=$($V/bin/python -c "import site; print(site.getsitepackages()[0])")
  printf '/venv/lib/python3.12/site-packages\n/repo\n' > $SP/verif_overlay.pth
  PIP_NO_INDEX=1 $V/bin/pip install -q --no-index --find-links /opt/veriftools/wheels z3-solver crosshair-tool jsonschema
fi
$V/bin/python -c "import z3, crosshair, numpy, scipy, dadi; print('verif env ok: z3', z3.get_version_string(), 'numpy', numpy.__version__, 'dadi', dadi.__file__)"
mkdir -p /verif/evidence /verif/replay
