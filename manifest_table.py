claim('C07',
      'Bounded symbolic check: for k=1..6 grid sizes z3 proves, over all polynomial coefficients and all (distinct, positive) grid spacings, '
      'that the real make_extrap_func/make_extrap_log_func return exactly the x=0 value, fall back to the smallest-x value exactly when the '
      'decades test fires, keep labels, accept pts positionally or by keyword and reject k=0/7. Bounded in the number of entries per result (1-2) '
      'and, for k>=4, in the enumerated list orders.',
      'doubles modelled as reals; EXP/LOG uninterpreted with LOG(EXP t)=t; numpy.log10 replaced by a fresh-real contract stub; z3 trusted',
      'DESIGN.md 3/C07')
_todo = 'check not built yet (work in progress in this session; see DESIGN.md for the plan)'
for _p in ['C01','C02','C03','C04','C05','C06','C08','C09','C10','C11','C12','C13','C14','C15','C17','C18','C19','C20']:
    NA[_p] = _todo
NA['C16'] = ('every path from a demes graph to a spectrum goes through the third-party demes package (attrs validators, float() coercion, '
             'math.isclose, YAML) which forces all symbolic values to concrete floats: nothing is left for a solver to quantify over (DESIGN.md section 4)')
