claim('C07',
      'Bounded symbolic check: for k=1..6 grid sizes z3 proves, over all polynomial coefficients and all (distinct, positive) grid spacings, '
      'that the real make_extrap_func/make_extrap_log_func return exactly the x=0 value, fall back to the smallest-x value exactly when the '
      'decades test fires, keep labels, accept pts positionally or by keyword and reject k=0/7. Bounded in the number of entries per result (1-2) '
      'and, for k>=4, in the enumerated list orders.',
      'doubles modelled as reals; EXP/LOG uninterpreted with LOG(EXP t)=t; numpy.log10 replaced by a fresh-real contract stub; z3 trusted',
      'DESIGN.md 3/C07')

claim('C02',
      'Bounded symbolic check from the real C (LLVM IR) and Python: for every one of the 15 per-axis kernels, the 5 precomputed-coefficient '
      'kernels (through the real Python coefficient builders) and the drivers one_pop..five_pops (constant and function-of-time parameters, '
      'frozen flags), z3 proves for all densities, per-axis grids, nu, distinct migration rates, gamma, h, beta, dt that each line of each '
      'sweep hands the Thomas solver exactly the reference implicit flux-form system (absorbing terms only on the two corner lines), '
      'r=phi/dt, and writes the solution back to the same line; the Thomas solver is verified from its own IR (residual, premalloc twin, '
      'uniqueness n<=5); Chang-Cooper weights are verified against their defining property. Bounded in grid points per axis (3-4 quick) and '
      'one time step.',
      'doubles as reals; tridiagonal solve and compute_delj replaced by contracts inside kernels and verified separately; _compute_dt '
      'stubbed by a fresh dt>=T; denominators in a query assumed non-zero; clang -O0 IR + interpreter validated by replay on gcc-built C',
      'DESIGN.md 3/C02')
claim('C09',
      'Bounded symbolic check of the real Spectrum.fold/unfold, Numerics.apply_anc_state_misid/make_anc_state_misid_func, operator overloads, '
      'slicing and Inference.ll auto-folding on object-dtype spectra with one z3 real per entry: entrywise folding formula, totals, mirror '
      'symmetry, mask union, fold(unfold(fold))=fold, convex misidentification mix for symbolic p, flag/mask/label survival through every '
      'binary/unary/in-place operator, refusal of mixed folding; shapes 1-5 D (<=12 entries exhaustively masked in thorough).',
      'doubles as reals; masks/shapes enumerated, values symbolic; LOG/LGAMMA replaced by fresh-value contract stubs with argument identities proved',
      'DESIGN.md 3/C09')
claim('C10',
      'Bounded symbolic check of the real marginalize/filter_pops/reorder_pops/combine_pops/combine_two_pops/scramble_pop_ids/Misc.combine_pops '
      'against explicit re-indexing oracles (math.comb / Fractions) with one z3 real per entry: entries, masks, labels, folded flag, totals, '
      'commutation with fold and project; 2-6 D shapes with unequal sample sizes 1-3 (1-4 thorough), every subset/permutation/merge set up to 5-D; plus three large-sample-size shapes (258,2),(2,259),(130,2,2) for fold/marginalize/reorder/scramble.',
      'doubles as reals; gammaln replaced by the exact integer-argument stub (validated against scipy); shapes enumerated, values symbolic',
      'DESIGN.md 3/C10')

claim('C03',
      'Bounded symbolic check: (i) structurally, the coefficients of every tridiagonal solve issued by one_pop..five_pops contain no density/theta0 variable and the solver is linear in r (lemma T3 from tridiag.c), (ii) end to end with the real Thomas code interpreted inline at rational grid/parameter points z3 proves out(a*phi1+b*phi2, a*th1+b*th2)=a*out(phi1,th1)+b*out(phi2,th2) for symbolic densities/theta0s over 1-3 steps, 1-4 pops (5 in thorough), (iii) reference-size invariance: both parametrisations (x c) are run on a symbolic density and every solve of the second run is proved to be the first one divided by c (so both produce the same density by uniqueness), with the real time-step rule (1 pop, c symbolic) or its proved covariance lemma (2-5 pops, rational c); phi_1D invariance incl. genic selection.',
      'doubles as reals; tridiagonal solve replaced by its contract in the scaling units (justified by T1\'), EXP uninterpreted (congruence); rational parameter points chosen by VERIF_SEED for the end-to-end linearity units',
      'DESIGN.md 3/C03')
claim('C04',
      'Bounded symbolic check: trapezoid-weighted column sums of the system of every line of every kernel (symbolic grids/parameters) = w_k/dt plus absorption only at the two corners; decoupling of interior from boundary rows and identical systems on all lines when m=gamma=0; drivers sweep exactly the non-frozen axes, inject dt*theta0/(2x1) only into non-frozen/non-nomut populations, reject frozen+incident migration for every m!=0; end to end (inline Thomas, rational points, symbolic density): frozen marginals unchanged at interior frequencies, isolated-subset marginals equal the lower-dimensional integration, total mass = influx - corner outflow per sweep, 2-5 pops.',
      'doubles as reals; tridiagonal contract in coefficient-level units; _compute_dt stubbed by a fresh dt>=T in symbolic-parameter driver units; rational points by VERIF_SEED',
      'DESIGN.md 3/C04')
claim('C05',
      'Bounded symbolic check of the real Spectrum.from_phi dispatch and samplers on symbolic densities (symbolic 1-D grids, rational 2-5-D grids): semi-analytic entries equal an independent exact cell-wise polynomial integral, totals equal trapezoid mass, linearity, project(from_phi(n),m)=from_phi(m), marginalise/sample commute, direct/het-ascertained/admix-props paths equal their trapezoid definitions, grid overshoot clamping, bookkeeping; inbreeding paths (beta-binomial convolution sums to 1, F->0 bound) as stretch units.',
      'doubles as reals (>=2-D semi-analytic laws up to 2^-40 of the mass because dadi forms float constants); betainc/comb/gammaln replaced by exact integer-argument stubs validated against scipy',
      'DESIGN.md 3/C05')
claim('C06',
      'Bounded symbolic check of every PhiManip constructor, split, pulse (all 14 phi_*D_admix_*), remove/filter/reorder on symbolic densities and symbolic proportions in the closed simplex over rational grids: every feasible searchsorted cell (incl. frequencies landing on grid points) is explored and z3 proves marginal conservation, two-point linear deposition, identity at proportion 0, acceptance on the whole simplex, rejection above 1, per-axis grids, explicit trapezoid/permutation oracles.',
      'doubles as reals; grids rational (symbolic grids outside); at most two proportions symbolic at once, the others enumerated rationals',
      'DESIGN.md 3/C06')
claim('C08',
      'Bounded symbolic check of the real Spectrum.project/_cached_projection with exact log-space weights: every projected entry equals the hypergeometric expectation (math.comb oracle) for symbolic data, totals, two-stage=one-stage, axis-order independence, 1/i fixed point, mask = reachable-with-non-zero-weight, folded = fold(project(unfold)), upward projection refused, cold and scrambled-warm cache; 1-D n<=40 (all m), weights up to n=258 for selected (n,m) including 127..129 / 255..257 as n, m and n-m, 2-4-D small shapes.',
      'doubles as reals; gammaln/exp replaced by exact log-rational stubs (float accuracy of the log-space formula outside)',
      'DESIGN.md 3/C08')
claim('C11',
      'Bounded symbolic check of the real Inference.ll/ll_per_bin/ll_multinom/optimal_sfs_scaling/optimally_scaled_sfs/linear_Poisson_residual on symbolic model/data spectra with independent enumerated masks, folded and unfolded: per-bin Poisson formula over exactly the joint mask, scaling = sum(d)/sum(m) over the joint entries, ll_multinom = ll(theta*model), invariance under model rescaling, ll(c*m)<=ll_multinom(m) from instantiated log axioms, residual sign/mask; "model=c*data maximises" as stretch.',
      'doubles as reals; log/gammaln/sqrt replaced by contract stubs (fresh value per distinct argument, argument identities proved; sqrt characterised exactly)',
      'DESIGN.md 3/C11')
claim('C12',
      'Bounded symbolic check of the optimiser plumbing with nlopt/scipy optimisers replaced by contract stubs: parameter projection up/down mutually inverse for every fixed mask (1-4 params), _object_func evaluates the model only inside the bounds with fixed values placed, NLopt_mod.opt and every scipy wrapper start at the user point, never evaluate outside the bounds, return fixed values unchanged, return the optimiser\'s point (natural and log parametrisation) whose likelihood is the reported optimum, perturb_params formula and clamps.',
      'doubles as reals; behaviour of nlopt/scipy themselves is outside (contract: evaluates x0 first, returns a point within the bounds it was given, no worse than the start); EXP/LOG uninterpreted with inverse instances',
      'DESIGN.md 3/C12')
claim('C13',
      'Bounded check: symbolic part - Spectrum._from_count_dict/from_data_dict with symbolic per-key multiplicities equals the sum of hypergeometric projections (folded when unpolarised), totals, additivity over chunks; S, pi, Watterson, theta_L, Tajima D, Fst on symbolic spectra equal per-SNP definitions; bootstraps over every scripted draw. String/dict layer (count_data_dict, fragment_data_dict, make_data_dict_vcf incl. subsampling) by bounded-exhaustive enumeration against independent references (concrete runs, labelled as such).',
      'doubles as reals (slack 2^-40 where dadi forms float constants); random draws scripted exhaustively; VCF/dict layer is enumeration, not solver-decided',
      'DESIGN.md 3/C13')
claim('C14',
      'Weak fragment: CrossHair symbolic execution of the real to_file/from_file through in-memory files with symbolic labels/comments/flags/mask bits (small bounded strings; "Not confirmed" reported as stretch-inconclusive), complemented by bounded-exhaustive concrete enumeration on real files (plain, gzip, pickle, array writer, pre-1.3 format) with an independent parser of the documented format.',
      'string symbolic execution bounded to a few characters; numeric formatting/parsing exercised concretely only; enumeration part is not solver-decided',
      'DESIGN.md 3/C14', technique='CrossHair symbolic execution (z3 strings) + bounded-exhaustive enumeration')
claim('C17',
      'Bounded symbolic check of the real Cache1D/Cache2D integrate*, mixture*, Vourlaki mixture, merge and cache-building logic on caches with symbolic spectra, theta, proportions, rho: result = theta x documented quadrature decomposition (trapezoid + tails/edges/corners, point-mass quadrant weights), parameter slices per density, linearity in theta, merge raises iff a job is missing/conflicting, worker-fault reporting under a sequential in-process model of the pool, C bivariate pdfs (LLVM IR) equal their Python/textbook formulas.',
      'doubles as reals; pdf and quad/dblquad are contract stubs (fresh value per abscissa / per integrand+limits); OS-level multiprocessing and quadrature accuracy outside',
      'DESIGN.md 3/C17')
claim('C18',
      'Bounded symbolic check of the real LowPass helpers on symbolic coverage distributions (simplex) and symbolic models: partition enumeration and probabilities, projection and calling-error matrices row-stochastic and non-negative, no-call probability in [0,1], corrected total <= uncorrected, deep-coverage limit equals hypergeometric projection, F->0 continuity of the inbred projection matrix; n_sequenced<=8, depths<=8 dense / 80 sparse.',
      'doubles as reals; scipy special functions replaced by exact stubs; sums abstracted by fresh reals with z3-proved lemmas; simulated regime outside',
      'DESIGN.md 3/C18')
claim('C19',
      'Bounded symbolic check: get_hess/get_grad/hessian_elem exact on every quadratic (all 3^k stencil regimes, k<=3 quick, 5 thorough) and linear function; on linear Poisson models the real get_godambe/FIM/GIM/LRT/Wald/score assemble H, J, cU, GIM and the statistics exactly by their definitions from the exact stencils, are invariant under bootstrap permutations and independent of cache history; sum_chi2_ppf accepts scalars and arrays.',
      'doubles as reals; log/gammaln/sqrt/chi2.cdf uninterpreted, numpy.linalg.inv replaced by an exact adjugate inverse whose contract is proved; O(eps^2) closeness to analytic closed forms outside',
      'DESIGN.md 3/C19')

claim('C01',
      'Fragment (bounded symbolic): the neutral equilibrium returned by phi_1D equals the textbook theta0*nu/x*4beta/(beta+1)^2 and is an exact fixed point of the real one-population integrator (both drivers, from tridiag / implicit_1Dx IR) at every interior frequency for any number of steps; for every density one implicit step multiplies heterozygosity by exactly 1/(1+dt*kappa/nu) and the influx adds dt*theta0/2*(1-x_1) - pinning time unit, 1/nu drift, theta0/2 influx and the beta factor for all grids/sizes/theta0/beta/dt. The convergence-to-theory part of C01 (error ~ dt, 1.5%, multi-epoch coalescent expectations, selection equilibria) is NOT claimed.',
      'doubles as reals; tridiagonal contract + uniqueness lemma (C02); the documented scheme is taken as the reference discretisation; only gamma=0',
      'DESIGN.md 3/C01')

claim('C20',
      'Fragment (bounded symbolic): (a) every public integrator, Spectrum method, from_phi, likelihood, optimiser helper, PhiManip non-pulse function and Numerics helper leaves its array/list arguments unchanged (deep snapshot vs after, element identity or solver equality) and the integrators return a fresh non-aliasing array, also on the T==initial_t and frozen shortcuts; (b) layout independence: one_pop..five_pops on 13 view patterns of phi (C/F order, transposes, slices, negative strides) and 4 of xx equal the result on a contiguous copy for all density values (kernels from LLVM IR with the pointer semantics of the compiled code); (c) value-keyed caches (_dbeta_cache, Godambe.cache) are transparent for independent symbolic keys; integer-keyed caches by enumeration.',
      'doubles as reals; PYTHONHASHSEED / fresh-interpreter comparison / Demes.cache outside; integer-keyed caches covered by enumeration (labelled); one time step in (a)/(b)',
      'DESIGN.md 3/C20')

claim('C15',
      'Fragment (bounded symbolic): all 104 library model functions exposing __param_names__ (1-3 population, Portik, demography+selection) are run on symbolic parameters (real PhiManip, Integration drivers incl. C kernels from LLVM IR, from_phi; tridiagonal contract, small rational grid, k steps per epoch): no exception on any feasible path, spectrum of shape ns+1 with the two corners masked and extrap_x set, one parameter more/fewer rejected, every named parameter is used, selection models hand their gammas to every epoch; 163 nesting pairs (sym/asym with equal rates, zero migration, zero-length epochs, gamma1=gamma2, gamma=0, constant-size growth models vs constant models, cross-family twins) are proved to issue solver-equal tridiagonal systems call by call and hence equal spectra.',
      'doubles as reals; finiteness/non-negativity and label-swap equivariance outside; EXP/POW uninterpreted with positivity axioms; at most 3 steps per epoch; mismatching call sequences are refined inline at rational points before anything is reported',
      'DESIGN.md 3/C15')
_todo = 'check not built yet (in progress in this session; see DESIGN.md for the plan)'
for _p in []:
    NA[_p] = _todo
NA['C16'] = ('every path from a demes graph to a spectrum goes through the third-party demes package (attrs validators, float() coercion, '
             'math.isclose, YAML) which forces all symbolic values to concrete floats: nothing is left for a solver to quantify over (DESIGN.md section 4)')
