claim('C07',
      'Bounded symbolic check: for k=1..6 grid sizes z3 proves, over all polynomial coefficients and all (distinct, positive) grid spacings, '
      'that the real make_extrap_func/make_extrap_log_func return exactly the x=0 value, fall back to the smallest-x value exactly when the '
      'decades test fires, keep labels, accept pts positionally or by keyword and reject k=0/7. Bounded in the number of entries per result (1-2) '
      'and, for k>=4, in the enumerated list orders.',
      'doubles modelled as reals; EXP/LOG uninterpreted with LOG(EXP t)=t; numpy.log10 replaced by a fresh-real contract stub; z3 trusted',
      'DESIGN.md 3/C07')

claim('C02',
      'Bounded symbolic check from the real C (LLVM IR) and Python: for every one of the 15 per-axis kernels, the 5 precomputed-coefficient '
      'kernels (through the real Python coefficient builders) and the drivers one_pop..five_pops (constant and function-of-time parameters, '
      'frozen flags), z3 proves for all densities, per-axis grids, nu, distinct migration rates, gamma, h, beta, dt that each line of each '
      'sweep hands the Thomas solver exactly the reference implicit flux-form system (absorbing terms only on the two corner lines), '
      'r=phi/dt, and writes the solution back to the same line; the Thomas solver is verified from its own IR (residual, premalloc twin, '
      'uniqueness n<=5); Chang-Cooper weights are verified against their defining property. Bounded in grid points per axis (3-4 quick) and '
      'one time step.',
      'doubles as reals; tridiagonal solve and compute_delj replaced by contracts inside kernels and verified separately; _compute_dt '
      'stubbed by a fresh dt>=T; denominators in a query assumed non-zero; clang -O0 IR + interpreter validated by replay on gcc-built C',
      'DESIGN.md 3/C02')
claim('C09',
      'Bounded symbolic check of the real Spectrum.fold/unfold, Numerics.apply_anc_state_misid/make_anc_state_misid_func, operator overloads, '
      'slicing and Inference.ll auto-folding on object-dtype spectra with one z3 real per entry: entrywise folding formula, totals, mirror '
      'symmetry, mask union, fold(unfold(fold))=fold, convex misidentification mix for symbolic p, flag/mask/label survival through every '
      'binary/unary/in-place operator, refusal of mixed folding; shapes 1-5 D (<=12 entries exhaustively masked in thorough).',
      'doubles as reals; masks/shapes enumerated, values symbolic; LOG/LGAMMA replaced by fresh-value contract stubs with argument identities proved',
      'DESIGN.md 3/C09')
claim('C10',
      'Bounded symbolic check of the real marginalize/filter_pops/reorder_pops/combine_pops/combine_two_pops/scramble_pop_ids/Misc.combine_pops '
      'against explicit re-indexing oracles (math.comb / Fractions) with one z3 real per entry: entries, masks, labels, folded flag, totals, '
      'commutation with fold and project; 2-6 D shapes with unequal sample sizes 1-3 (1-4 thorough), every subset/permutation/merge set up to 5-D.',
      'doubles as reals; gammaln replaced by the exact integer-argument stub (validated against scipy); shapes enumerated, values symbolic',
      'DESIGN.md 3/C10')
_todo = 'check not built yet (work in progress in this session; see DESIGN.md for the plan)'
for _p in ['C01','C03','C04','C05','C06','C08','C11','C12','C13','C14','C15','C17','C18','C19','C20']:
    NA[_p] = _todo
NA['C16'] = ('every path from a demes graph to a spectrum goes through the third-party demes package (attrs validators, float() coercion, '
             'math.isclose, YAML) which forces all symbolic values to concrete floats: nothing is left for a solver to quantify over (DESIGN.md section 4)')
